"""C07 — the samples file is the chain: thinned states with their own misfits."""
import os
import random

import numpy as np

from .. import common
from ..common import Suite, Finding, Reader, lean_batch
from ..probes import snapshot_sampler_class, quiet, scratch
from .c01 import make_target, make_mass, inside_start, _hm

TRUSTED_EXTRA = ["C07: HDF5 / NPY encodings are parameters; the chain states are the per-proposal snapshots of an instrumented sampler subclass"]
ASSUMPTIONS = ["targets used here are deterministic functions of the position (misfit re-evaluated on stored columns)"]


def build(rnd_seed, cfg):
    """fresh (sampler, dist, kwargs) for a configuration; deterministic in rnd_seed"""
    _, S, MM, D = _hm()
    r = random.Random(rnd_seed)
    dist, tstr, bstr, tdesc, lb, ub = make_target(r, cfg["target"], cfg["d"], cfg["boxed"])
    q0 = inside_start(r, cfg["d"], lb, ub)
    # a user-written target may return its misfit as an array object ((1, 1), (1,), 0-d) instead of a float: a mutable value that the sampler
    # must store, not modify (a stream of its own, deterministic in rnd_seed like everything else here)
    rr = random.Random(rnd_seed ^ 0x1B873593)
    if rr.random() < 0.25:
        from .c02 import ArrayValued
        cfg["misfit_returned_as"] = rr.choice(["0d", "(1,)", "(1,1)"])
        ArrayValued.install(dist, cfg["misfit_returned_as"])
    base = S.RWMH if cfg["sampler"] == "RWMH" else S.HMC
    Snap = snapshot_sampler_class(base)
    s = Snap(seed=cfg["seed"])
    kw = dict(stepsize=cfg["stepsize"], autotuning=cfg["autotuning"])
    if cfg["sampler"] == "HMC":
        mass, _, _ = make_mass(r, cfg["mass"], cfg["d"])
        kw.update(mass_matrix=mass, integrator=cfg["integrator"], amount_of_steps=cfg["n"], randomize_stepsize=cfg["randomize"])
    return s, dist, q0, kw


PRINT_ERRORS = []


def read_all(fn):
    from hmclab.Samples import Samples

    with quiet():
        s = Samples(fn)
        arr = np.array(s.numpy, dtype=float)
        # looking at the file must not change what it says: print_details() (twice) before the attributes are read
        try:
            s.print_details()
            s.print_details()
        except Exception as e:
            PRINT_ERRORS.append(f"print_details() raised {e!r} on {os.path.basename(fn).split('.')[-1]}")
        keys = ["proposals", "online_thinning", "sampler", "write_index", "last_written_sample", "acceptance_rate", "stepsize"]
        attrs = {}
        for k in keys:
            try:
                attrs[k] = s.read_attribute(k)
            except Exception as e:
                attrs[k] = f"<missing: {e!r}>"
        for k in ("amount_of_steps", "mass_matrix", "integrator"):
            try:
                attrs[k] = s.read_attribute(k)
            except Exception:
                pass
        s.close()
    return arr, attrs


TIMING_ATTRS = ("start_time", "end_time", "runtime", "runtime_seconds")


def file_attrs(fn):
    import h5py

    out = {}
    with h5py.File(fn, "r") as f:
        ds = f["samples"]
        for k, v in ds.attrs.items():
            if k in TIMING_ATTRS:
                continue
            out[k] = np.asarray(v).tolist() if isinstance(v, (np.ndarray, np.generic)) else v
        arr = np.array(ds[...], dtype=float)
    return arr, out


def _stop_class():
    """target wrapper that raises KeyboardInterrupt at its k-th misfit call (an interrupted earlier run)"""
    from hmclab.Distributions import _AbstractDistribution

    class Stop(_AbstractDistribution):
        def __init__(self, inner, k, exc=KeyboardInterrupt):
            self.inner, self.k, self.calls, self.exc = inner, k, 0, exc
            self.dimensions = inner.dimensions
            self.lower_bounds, self.upper_bounds = inner.lower_bounds, inner.upper_bounds

        def misfit(self, m):
            self.calls += 1
            if self.calls == self.k:
                raise self.exc
            return self.inner.misfit(m)

        def gradient(self, m):
            return self.inner.gradient(m)

        def corrector(self, c, p):
            return self.inner.corrector(c, p)

        def generate(self, *a, **k):
            return self.inner.generate(*a, **k)

    return Stop


def reuse_suite(rnd, N, findings):
    """a run on a sampler object that has been used before = the run of a fresh object started from the same generator state"""
    import copy

    _, S, MM, D = _hm()
    _Stop = _stop_class()
    sr = Suite("C07.reuse", "a sampler object with a history of 1-3 earlier runs (other lengths, thinnings, stepsizes incl. per-dimension arrays, autotuning on/off, "
               "one of them possibly interrupted) vs a fresh object whose generator is set to the same state: the next run's file (columns, bit-exact) and "
               "all its non-timing attributes must coincide - the file describes the run, not the object's past; non-trivial = an earlier run used autotuning "
               "or was interrupted")
    with scratch() as tmp:
        for ci in range(N):
            cfg = {"sampler": rnd.choice(["RWMH", "HMC"]), "target": rnd.choice(["normaldiag", "himmelblau", "laplace"]), "boxed": rnd.random() < 0.3,
                   "seed": rnd.randrange(1 << 30), "stepsize": rnd.choice([0.1, 0.5, 1.5]), "autotuning": rnd.random() < 0.4,
                   "mass": rnd.choice(["unit", "diag", "full"]), "integrator": rnd.choice(["lf", "3s", "4s"]), "n": rnd.choice([1, 3]), "randomize": rnd.random() < 0.5}
            cfg["d"] = 2 if cfg["target"] == "himmelblau" else rnd.choice([1, 2, 3])
            bseed = rnd.randrange(1 << 30)
            hist = []
            for _ in range(rnd.choice([1, 2, 3])):
                h = {"P": rnd.choice([3, 5, 8]), "t": 1, "autotuning": rnd.random() < 0.5, "interrupt_at": rnd.choice([None, None, 4, 9]),
                     "stepsize": rnd.choice([0.2, 0.7, "vector"])}
                hist.append(h)
            P = rnd.choice([4, 6, 12])
            t = rnd.choice([d for d in divisors(P)])

            def make():
                r = random.Random(bseed)
                dist, _, _, _, lb, ub = make_target(r, cfg["target"], cfg["d"], cfg["boxed"])
                q0 = inside_start(r, cfg["d"], lb, ub)
                s = (S.RWMH if cfg["sampler"] == "RWMH" else S.HMC)(seed=cfg["seed"])
                mass = make_mass(r, cfg["mass"], cfg["d"])[0] if cfg["sampler"] == "HMC" else None
                return s, dist, q0, mass

            def kwargs(mass, stepsize, autotuning):
                if stepsize == "vector":
                    stepsize = np.linspace(0.2, 0.6, cfg["d"]).reshape(-1, 1) if cfg["sampler"] == "RWMH" else 0.3
                kw = dict(stepsize=stepsize, autotuning=autotuning)
                if cfg["sampler"] == "HMC":
                    kw.update(mass_matrix=mass, integrator=cfg["integrator"], amount_of_steps=cfg["n"], randomize_stepsize=cfg["randomize"])
                return kw

            a, dist, q0, mass_a = make()
            b, _, _, mass_b = make()
            stim = {"config": cfg, "history": hist, "proposals": P, "thinning": t}
            try:
                with quiet(), np.errstate(all="ignore"):
                    for hi, h in enumerate(hist):
                        target = dist if h["interrupt_at"] is None else _Stop(dist, h["interrupt_at"])
                        a.sample(os.path.join(tmp, f"r{ci}_h{hi}.h5"), target, initial_model=q0.copy(), proposals=h["P"], online_thinning=h["t"],
                                 overwrite_existing_file=True, disable_progressbar=True, **kwargs(mass_a, h["stepsize"], h["autotuning"]))
                    b.rng.bit_generator.state = copy.deepcopy(a.rng.bit_generator.state)
                    fa, fb = os.path.join(tmp, f"r{ci}_a.h5"), os.path.join(tmp, f"r{ci}_b.h5")
                    a.sample(fa, dist, initial_model=q0.copy(), proposals=P, online_thinning=t, overwrite_existing_file=True, disable_progressbar=True,
                             **kwargs(mass_a, cfg["stepsize"], cfg["autotuning"]))
                    b.sample(fb, dist, initial_model=q0.copy(), proposals=P, online_thinning=t, overwrite_existing_file=True, disable_progressbar=True,
                             **kwargs(mass_b, cfg["stepsize"], cfg["autotuning"]))
                arr_a, at_a = file_attrs(fa)
                arr_b, at_b = file_attrs(fb)
            except Exception as e:
                sr.case(stim, nontrivial=False)
                sr.count("raised")
                findings.append(Finding("C07", f"run on a re-used sampler object raised {e!r}", {"kind": "reuse-raise"}, {"oracle": "reuse", "stimulus": stim, "error": repr(e)}))
                continue
            sr.case(stim, nontrivial=any(h["autotuning"] or h["interrupt_at"] for h in hist), sample={"history": hist, "attributes_compared": sorted(at_a)} if len(sr.samples) < 2 else None)
            sr.count(f"sampler={cfg['sampler']}")
            sr.count(f"earlier runs={len(hist)}")
            if any(h["interrupt_at"] for h in hist):
                sr.count("an earlier run was interrupted")
            problems = []
            if arr_a.shape != arr_b.shape or arr_a.tobytes() != arr_b.tobytes():
                problems.append("columns of the run on the re-used object differ from those of a fresh object started from the same generator state")
            for k in sorted(set(at_a) | set(at_b)):
                if repr(at_a.get(k)) != repr(at_b.get(k)):
                    problems.append(f"attribute {k} is {at_a.get(k)!r} on the re-used object and {at_b.get(k)!r} on the fresh one")
            if problems:
                sr.disagree(stim, "same file", problems, problems[0])
                findings.append(Finding("C07", problems[0], {"kind": "reuse", "problem": problems[0][:30]}, {"oracle": "reuse", "stimulus": stim, "problems": problems}))
    return sr


def interrupted_suite(rnd, N, findings):
    """runs stopped by Ctrl-C inside a proposal: the stored attributes still describe what was completed"""
    _, S, MM, D = _hm()
    _Stop = _stop_class()
    si = Suite("C07.interrupted", "RWMH/HMC runs in which the target raises KeyboardInterrupt or an exception of its own (re-raised by sample()) at its k-th misfit call (inside a later proposal), HDF5 and NPY, "
               "thinning 1-3: acceptance_rate = accepted / completed proposals (counted from the instrumented sampler's completed transitions), write_index = "
               "number of stored columns = ceil(completed / t), columns = the completed chain states; non-trivial = >= 2 completed proposals")
    with scratch() as tmp:
        for ci in range(N):
            cfg = {"sampler": rnd.choice(["RWMH", "HMC"]), "target": rnd.choice(["normaldiag", "laplace"]), "boxed": False, "seed": rnd.randrange(1 << 30),
                   "stepsize": rnd.choice([0.1, 0.5, 1.5]), "autotuning": rnd.random() < 0.3, "mass": rnd.choice(["unit", "diag"]), "integrator": rnd.choice(["lf", "3s", "4s"]),
                   "n": rnd.choice([1, 3]), "randomize": rnd.random() < 0.5, "d": rnd.choice([1, 2, 3])}
            t = rnd.choice([1, 2, 3])
            P = t * rnd.choice([4, 8, 10])
            k = rnd.randint(2, 40)
            ext = rnd.choice(["h5", "npy"])
            s, dist, q0, kw = build(rnd.randrange(1 << 30), cfg)
            fn = os.path.join(tmp, f"i{ci}.{ext}")
            stim = {"config": cfg, "proposals": P, "thinning": t, "interrupt_at_misfit_call": k, "backend": ext}
            stopped_by = rnd.choice(["KeyboardInterrupt", "KeyboardInterrupt", "RuntimeError", "TimeoutError"])
            stim["stopped_by"] = stopped_by
            exc = {"KeyboardInterrupt": KeyboardInterrupt, "RuntimeError": RuntimeError("raised by the target"), "TimeoutError": TimeoutError("raised by the target")}[stopped_by]
            try:
                with quiet(), np.errstate(all="ignore"):
                    try:
                        s.sample(fn, _Stop(dist, k, exc), initial_model=q0.copy(), proposals=P, online_thinning=t, overwrite_existing_file=True, disable_progressbar=True, **kw)
                    except (RuntimeError, TimeoutError) as e:
                        if e is not exc:
                            raise
                arr, attrs = read_all(fn)
            except Exception as e:
                si.case(stim, nontrivial=False)
                if isinstance(e, (FileNotFoundError, ValueError)) and not getattr(s, "_v_transitions", []):
                    # nothing was completed: a file without columns cannot be opened for reading (C10: a burn-in of b is refused iff n <= b, here 0 <= 0;
                    # the NPY back end creates its data file with the first stored column)
                    si.count("interrupted before the first proposal completed (nothing to read back)")
                    continue
                findings.append(Finding("C07", f"interrupted run could not be completed/read back: {e!r}", {"kind": "interrupted", "problem": "raised"},
                                        {"oracle": "interrupted", "stimulus": stim, "error": repr(e)}))
                continue
            trans = getattr(s, "_v_transitions", [])
            completed = len(trans)
            n_acc = sum(1 for tr in trans if tr["post"]["accepted"] == tr["pre"]["accepted"] + 1)
            si.case(stim, nontrivial=completed >= 2, sample={"completed": completed, "accepted": n_acc, "columns": int(arr.shape[1])} if len(si.samples) < 3 else None)
            si.count(f"sampler={cfg['sampler']}")
            si.count(f"stopped by {stopped_by}")
            si.count("interrupted before the end" if completed < P else "ran to the end")
            problems = []
            want_cols = (completed + t - 1) // t
            if arr.shape[1] != want_cols:
                problems.append(f"file holds {arr.shape[1]} columns after {completed} completed proposals with thinning {t} (expected {want_cols})")
            else:
                states = [np.vstack([tr["post"]["model"], [[tr["post"]["x"]]]]) for tr in trans]
                for j in range(want_cols):
                    if not np.array_equal(arr[:, [j]], states[j * t], equal_nan=True):
                        problems.append(f"column {j} is not the chain state after proposal {j * t}")
                        break
            rate = float(attrs.get("acceptance_rate", float("nan"))) if not isinstance(attrs.get("acceptance_rate"), str) else float("nan")
            want_rate = (n_acc / completed) if completed else 0.0
            if not common.close(rate, want_rate, 1e-15, 0):
                problems.append(f"attribute acceptance_rate = {attrs.get('acceptance_rate')!r}, accepted/completed = {n_acc}/{completed}")
            if isinstance(attrs.get("write_index"), str) or int(attrs.get("write_index", -1)) != arr.shape[1]:
                problems.append(f"attribute write_index = {attrs.get('write_index')!r} for {arr.shape[1]} stored columns")
            if problems:
                si.disagree(stim, "attributes describe the completed part of the run", problems, problems[0])
                findings.append(Finding("C07", problems[0], {"kind": "interrupted", "problem": problems[0].split(" ")[0] + " " + problems[0].split(" ")[1]},
                                        {"oracle": "interrupted", "stimulus": stim, "problems": problems}))
    return si


def divisors(P):
    return [t for t in range(1, P + 1) if P % t == 0]


def run(tier, seed):
    rnd = random.Random(69069 * seed + 7)
    thorough = tier == "thorough"
    findings = []
    st = Suite("C07.file", "runs of RWMH/HMC (all integrators, mass matrices, bounded/unbounded targets, autotuning on/off; fresh sampler objects and objects with 1-2 earlier runs), P <= 60, every thinning t | P, "
               "HDF5 and NPY: file columns vs per-proposal state snapshots at the indices the model stores, misfit re-evaluated on the stored columns, "
               "attributes, equality of the two back ends, thinned = every t-th column of the unthinned run; bit-exact; "
               "non-trivial = t > 1 and at least one accept and one reject")
    reqs, metas = [], []
    with scratch() as tmp:
        for ci in range(60 if thorough else 16):
            P = rnd.choice([1, 2, 6, 12, 20, 30, 60] if thorough else [1, 6, 12, 20])
            cfg = {"sampler": rnd.choice(["RWMH", "HMC"]), "target": rnd.choice(["normaldiag", "himmelblau", "laplace", "uniform"]),
                   "boxed": rnd.random() < 0.3, "seed": rnd.randrange(1 << 30), "stepsize": rnd.choice([0.1, 0.5, 1.5]),
                   "autotuning": rnd.random() < 0.3, "mass": rnd.choice(["unit", "diag", "full"]), "integrator": rnd.choice(["lf", "3s", "4s"]),
                   "n": rnd.choice([1, 3, 6]), "randomize": rnd.random() < 0.5}
            cfg["d"] = 2 if cfg["target"] == "himmelblau" else rnd.choice([1, 2, 3, 5])
            cfg["earlier_runs"] = rnd.choice([0, 0, 1, 2])
            cfg["same_path"] = cfg["earlier_runs"] > 0 and rnd.random() < 0.5
            cfg["overwrite_flag"] = rnd.choice(["True", "True", "numpy.True_", "1"])
            if ci < 3:
                # every run of the check replaces an existing file with each spelling of the flag
                cfg["earlier_runs"], cfg["same_path"], cfg["overwrite_flag"] = 1, True, ["numpy.True_", "1", "True"][ci]
            if cfg["target"] == "uniform":
                cfg["boxed"] = True
            cfg["afterwards"] = random.Random(cfg["seed"] ^ 0x9E3779B9).choice(["nothing", "nothing", "refused-start", "refused-open"])
            cfg["nested"] = ci == 3 or random.Random(cfg["seed"] ^ 0x7F4A7C15).random() < 0.15
            bseed = rnd.randrange(1 << 30)
            unthinned = None
            ts = divisors(P)
            if not thorough and len(ts) > 4:
                ts = [1] + rnd.sample(ts[1:], 3)
            for t in ts:
                per_backend = {}
                for ext in ("h5", "npy"):
                    s, dist, q0, kw = build(bseed, cfg)
                    fn = os.path.join(tmp, f"c{ci}_{t}.{ext}")
                    if cfg["nested"]:
                        # a target whose misfit runs a short sampler of its own, with its own samples file (a marginalised nuisance parameter):
                        # two writers are alive at the same time; each file is the chain of its own sampler
                        _, S_, _, D_ = _hm()
                        inner_fn = os.path.join(tmp, f"c{ci}_{t}_inner.{'npy' if ext == 'h5' else 'h5'}")
                        orig_misfit, counter = dist.misfit, {"k": 0}

                        def nested_misfit(m_, orig_misfit=orig_misfit, counter=counter, inner_fn=inner_fn):
                            v = orig_misfit(m_)
                            counter["k"] += 1
                            if counter["k"] % 3 == 2:
                                S_.RWMH(seed=77).sample(inner_fn, D_.Normal(np.zeros((2, 1)), 1.0), proposals=3, overwrite_existing_file=True, disable_progressbar=True)
                            return v

                        dist.misfit = nested_misfit
                    with quiet(), np.errstate(all="ignore"):
                        # history: the same sampler object has already been used for earlier runs (other file, other length)
                        for hrun in range(cfg["earlier_runs"]):
                            # ... possibly at the very path of the run under test, which then has to replace that file
                            pre = fn if (cfg["same_path"] and hrun == cfg["earlier_runs"] - 1) else os.path.join(tmp, f"c{ci}_{t}_pre{hrun}.{ext}")
                            s.sample(pre, dist, initial_model=q0.copy(), proposals=[7, 4][hrun % 2],
                                     online_thinning=1, overwrite_existing_file=True, disable_progressbar=True, **kw)
                        s._v_transitions = []
                        s.sample(fn, dist, initial_model=q0.copy(), proposals=P, online_thinning=t,
                                 overwrite_existing_file={"True": True, "numpy.True_": np.True_, "1": 1}[cfg["overwrite_flag"]],
                                 disable_progressbar=True, **kw)
                    # the finished file goes on describing its run, whatever is refused afterwards: another sampler that is not allowed to overwrite it,
                    # a writer that is not allowed to open it (and the garbage collection of those half-started objects)
                    if cfg["afterwards"] != "nothing":
                        import gc
                        from hmclab.Samples import Samples as _Samples
                        with quiet(), np.errstate(all="ignore"):
                            try:
                                if cfg["afterwards"] == "refused-start":
                                    s2, dist2, q02, kw2 = build(bseed + 1, cfg)
                                    s2.sample(fn, dist2, initial_model=q02.copy(), proposals=3, disable_progressbar=True, **kw2)
                                else:
                                    _Samples(fn, mode="w")
                                PRINT_ERRORS.append(f"a {cfg['afterwards']} on the finished file was not refused")
                            except FileExistsError:
                                pass
                            s2 = None
                            gc.collect()
                    try:
                        arr, attrs = read_all(fn)
                    except Exception as e:
                        findings.append(Finding("C07", f"the finished {ext} file of a run of {P} proposals (thinning {t}) cannot be read back"
                                                + (f" after a {cfg['afterwards']}" if cfg["afterwards"] != "nothing" else "") + f": {e!r}"[:200],
                                                {"kind": "file", "problem": "unreadable"}, {"oracle": "file", "stimulus": {"config": cfg, "proposals": P, "thinning": t, "backend": ext}}))
                        per_backend = None
                        break
                    per_backend[ext] = (arr, attrs, s, dist)
                if per_backend is None:
                    continue
                arr, attrs, s, dist = per_backend["h5"]
                trans = s._v_transitions
                states = [np.vstack([tr["post"]["model"], [[tr["post"]["x"]]]]) for tr in trans]
                n_acc = sum(1 for tr in trans if tr["post"]["accepted"] == tr["pre"]["accepted"] + 1)
                stim = {"config": cfg, "proposals": P, "thinning": t}
                st.case(stim, nontrivial=(t > 1 and 0 < n_acc < P))
                st.count(f"sampler={cfg['sampler']}")
                st.count(f"t={'1' if t == 1 else '>1'}")
                st.count(f"earlier runs on the same sampler object={cfg['earlier_runs']}")
                if cfg["same_path"]:
                    st.count(f"replaces an existing file, overwrite_existing_file={cfg['overwrite_flag']}")
                st.count(f"afterwards: {cfg['afterwards']}")
                if cfg["nested"]:
                    st.count("the target runs an inner sampler with a file of its own")
                if t == 1:
                    unthinned = arr
                problems = []
                # direct oracles -----------------------------------------------------------------
                if arr.shape[1] != P // t:
                    problems.append(f"file holds {arr.shape[1]} columns for P={P}, t={t}")
                else:
                    for j in range(P // t):
                        if not np.array_equal(arr[:, [j]], states[j * t], equal_nan=True):
                            problems.append(f"column {j} is not the chain state (with its misfit) after proposal {j * t}")
                            break
                    for j in range(P // t):
                        with np.errstate(all="ignore"):
                            re = float(np.asarray(dist.misfit(arr[:-1, [j]].copy()), dtype=float).reshape(-1)[0])
                        if not (common.bits_equal(float(re), float(arr[-1, j])) or common.close(re, arr[-1, j], 1e-13, 0)):
                            problems.append(f"stored misfit of column {j} is not the target's misfit at the stored state")
                            break
                    if unthinned is not None and not np.array_equal(arr, unthinned[:, ::t][:, : P // t], equal_nan=True):
                        problems.append("thinned run is not every t-th column of the unthinned run")
                if PRINT_ERRORS:
                    problems.append(PRINT_ERRORS[0])
                    PRINT_ERRORS.clear()
                a2, attrs2, _, _ = per_backend["npy"]
                if a2.shape != arr.shape or not np.array_equal(a2, arr, equal_nan=True):
                    problems.append("HDF5 and NPY files differ")
                for name, at in (("HDF5", attrs), ("NPY", attrs2)):
                    want = {"proposals": P, "online_thinning": t, "sampler": s.name, "write_index": P // t}
                    for k, v in want.items():
                        got = at.get(k)
                        if isinstance(got, bytes):
                            got = got.decode()
                        if not (got == v):
                            problems.append(f"{name} attribute {k} = {got!r}, expected {v!r}")
                    rate_attr = at.get("acceptance_rate", float("nan"))
                    if isinstance(rate_attr, str) or not common.close(float(rate_attr), n_acc / P, 1e-15, 0):
                        problems.append(f"{name} attribute acceptance_rate = {at.get('acceptance_rate')!r}, expected accepted/completed = {n_acc}/{P}")
                    if cfg["sampler"] == "HMC":
                        if int(at.get("amount_of_steps", -1)) != cfg["n"]:
                            problems.append(f"{name} attribute amount_of_steps does not describe the run")
                        if str(at.get("integrator")) != s.integrators_full_names[cfg["integrator"]]:
                            problems.append(f"{name} attribute integrator does not describe the run")
                    if not cfg["autotuning"] and not common.close(float(at.get("stepsize", float("nan"))), cfg["stepsize"], 0, 0):
                        problems.append(f"{name} attribute stepsize = {at.get('stepsize')!r}")
                if problems:
                    findings.append(Finding("C07", problems[0], {"kind": "file", "problem": problems[0][:36]},
                                            {"oracle": "file", "stimulus": stim, "problems": problems}))
                reqs.append(f"c08.fault {P} {t} {' '.join(['1'] * P)} - I")
                metas.append((stim, arr, states))
    for (stim, arr, states), ans in zip(metas, lean_batch(reqs)):
        parts = ans[3:].split(" | ")
        toks = parts[0].split()
        idx = [int(x) for x in toks[1:]]
        wi = int(parts[1].split()[0])
        if len(st.samples) < 3:
            st.samples.append({"proposals": stim["proposals"], "thinning": stim["thinning"], "model_stored_proposals": idx[:8]})
        ok = arr.shape[1] == len(idx) == wi and all(np.array_equal(arr[:, [j]], states[i], equal_nan=True) for j, i in enumerate(idx))
        if not ok:
            st.disagree(stim, {"stored_proposals": idx}, {"columns": int(arr.shape[1])}, "file differs from the model's thinned chain")
    sr = reuse_suite(rnd, 60 if thorough else 16, findings)
    si = interrupted_suite(rnd, 80 if thorough else 24, findings)
    return [st, sr, si], findings


def search(tier, seed, broken):
    return []


def replay(body):
    return False, "re-run ./check C07 (runs are regenerated from the seed)"
