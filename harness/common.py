"""Shared plumbing for the hmclab verification harness (see DESIGN.md §2)."""
import hashlib
import json
import math
import os
import struct
import subprocess
import sys
import time

VERIF = os.path.dirname(os.path.dirname(os.path.abspath(__file__)))
REPO = os.environ.get("HMCLAB_REPO", "/repo")
LEAN_DIR = os.path.join(VERIF, "lean")
DRIVER = os.path.join(LEAN_DIR, ".lake", "build", "bin", "hmcdrv")

# single-threaded BLAS for run-to-run determinism; never write byte code into /repo
for _k in ("OMP_NUM_THREADS", "OPENBLAS_NUM_THREADS", "MKL_NUM_THREADS"):
    os.environ.setdefault(_k, "1")
os.environ.setdefault("MPLBACKEND", "Agg")
sys.dont_write_bytecode = True
if REPO not in sys.path:
    sys.path.insert(0, REPO)


# ----------------------------------------------------------------------------- hex floats
def fhex(x):
    x = float(x)
    if x != x:
        return "7ff8000000000000"
    return struct.pack(">d", x).hex()


def unhex(s):
    return struct.unpack(">d", bytes.fromhex(s))[0]


def vhex(v):
    v = [float(t) for t in list(_flat(v))]
    return " ".join([str(len(v))] + [fhex(t) for t in v])


def mhex(m):
    rows = [list(r) for r in m]
    return " ".join([str(len(rows))] + [vhex(r) for r in rows])


def opt(s):
    return "-" if s is None else "+ " + s


def _flat(v):
    import numpy as np

    return np.asarray(v, dtype=float).reshape(-1)


class Reader:
    """token reader for driver answers"""

    def __init__(self, line):
        self.t = line.split()
        self.i = 0

    def tok(self):
        t = self.t[self.i]
        self.i += 1
        return t

    def nat(self):
        return int(self.tok())

    def flt(self):
        return unhex(self.tok())

    def vec(self):
        n = self.nat()
        return [self.flt() for _ in range(n)]

    def done(self):
        return self.i == len(self.t)


# ----------------------------------------------------------------------------- Lean driver
class DriverError(Exception):
    pass


def lean_batch(lines, timeout=600):
    """Run the executable model on request lines; returns the list of answer lines."""
    if not lines:
        return []
    if os.path.exists(DRIVER):
        cmd = [DRIVER]
    else:  # fallback: interpreter
        cmd = ["lake", "env", "lean", "--run", "Main.lean"]
    p = subprocess.run(
        cmd,
        input="\n".join(lines) + "\n",
        capture_output=True,
        text=True,
        cwd=LEAN_DIR,
        timeout=timeout,
    )
    out = p.stdout.splitlines()
    if p.returncode != 0 or len(out) != len(lines):
        raise DriverError(
            f"driver returned {p.returncode}, {len(out)} answers for {len(lines)} requests: {p.stderr[:500]}"
        )
    return out


# ----------------------------------------------------------------------------- comparison
def bits_equal(a, b):
    """bit-for-bit equality of two floats, all NaNs identified, -0.0 == 0.0 NOT identified"""
    return fhex(a) == fhex(b)


def close(a, b, rtol=1e-9, atol=1e-12):
    a = float(a)
    b = float(b)
    if a != a or b != b:
        return (a != a) and (b != b)
    if math.isinf(a) or math.isinf(b):
        return a == b
    return abs(a - b) <= atol + rtol * max(abs(a), abs(b))


def vclose(a, b, rtol=1e-9, atol=1e-12, scale=None):
    a = list(_flat(a))
    b = list(_flat(b))
    if len(a) != len(b):
        return False
    if scale is None:
        fin = [abs(t) for t in a + b if t == t and not math.isinf(t)]
        scale = max(fin) if fin else 0.0
    for x, y in zip(a, b):
        if x != x or y != y:
            if not ((x != x) and (y != y)):
                return False
            continue
        if math.isinf(x) or math.isinf(y):
            if x != y:
                return False
            continue
        if abs(x - y) > atol + rtol * max(scale, abs(x), abs(y)):
            return False
    return True


def vbits(a, b):
    a = list(_flat(a))
    b = list(_flat(b))
    return len(a) == len(b) and all(bits_equal(x, y) or (x == 0.0 and y == 0.0) for x, y in zip(a, b))


def chash(obj):
    return hashlib.sha256(json.dumps(obj, sort_keys=True, default=str).encode()).hexdigest()[:16]


# ----------------------------------------------------------------------------- results
class Suite:
    """Result collector for one correspondence suite."""

    def __init__(self, name, rule):
        self.name = name
        self.rule = rule
        self.evaluations = 0
        self.nontrivial = set()
        self.indeterminate = 0
        self.disagreements = []  # list of dict (stimulus, expected, observed, note)
        self.samples = []
        self.hist = {}

    def case(self, stimulus, nontrivial=True, sample=None):
        self.evaluations += 1
        if nontrivial:
            self.nontrivial.add(chash(stimulus))
        if sample is not None and len(self.samples) < 3:
            self.samples.append(sample)

    def count(self, key, n=1):
        self.hist[key] = self.hist.get(key, 0) + n

    def disagree(self, stimulus, expected, observed, note=""):
        if len(self.disagreements) < 50:
            self.disagreements.append(
                {"suite": self.name, "stimulus": stimulus, "expected": expected, "observed": observed, "note": note}
            )
        else:
            self.disagreements.append(None)

    @property
    def ok(self):
        return not self.disagreements

    def merge(self, other):
        """fold the results of another round of the same suite (other seed) into this one"""
        self.evaluations += other.evaluations
        self.nontrivial |= other.nontrivial
        self.indeterminate += other.indeterminate
        self.disagreements += other.disagreements
        for k, v in other.hist.items():
            self.hist[k] = self.hist.get(k, 0) + v
        self.samples = (self.samples + other.samples)[:3]

    def summary(self):
        return {
            "suite": self.name,
            "evaluations": self.evaluations,
            "distinct_nontrivial": len(self.nontrivial),
            "indeterminate": self.indeterminate,
            "disagreements": len(self.disagreements),
            "rule": self.rule,
            "distribution": dict(sorted(self.hist.items())),
        }


class Finding:
    """A concrete failing input of the property on the implementation."""

    def __init__(self, prop, what, signature, replay):
        self.prop = prop
        self.what = what  # one line
        self.signature = signature  # dict used to match known_findings.json
        self.replay = replay  # dict: everything needed to re-run


def jsonable(o):
    import numpy as np

    if isinstance(o, dict):
        return {str(k): jsonable(v) for k, v in o.items()}
    if isinstance(o, (list, tuple)):
        return [jsonable(v) for v in o]
    if isinstance(o, np.ndarray):
        return jsonable(o.tolist())
    if isinstance(o, (np.floating, float)):
        x = float(o)
        if x != x or math.isinf(x):
            return repr(x)
        return x
    if isinstance(o, (np.integer,)):
        return int(o)
    if isinstance(o, (np.bool_,)):
        return bool(o)
    if isinstance(o, (str, int, bool)) or o is None:
        return o
    return repr(o)
