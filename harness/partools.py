"""Instrumentation for hmclab's ParallelSampleSMP: tapped sampler subclasses, logging pipes with
scripted delays, and the supervised runner. Everything is defined here (module level) so that the
objects survive copy.deepcopy and fork."""
import os
import pickle
import random
import time

import numpy as np

from . import common  # noqa: F401
from .parallel import supervised, read_samples  # noqa: F401

EVENTS = []          # process-local (after fork): pipe events of this chain process
SLEEP = {"rnd": None, "scale": 0.0}


class LoggingRNG:
    """proxy around a real numpy Generator: records uniform draws made during the exchange phase"""

    def __init__(self, real, owner):
        self._real = real
        self._owner = owner
        self.exchange_uniforms = []

    def uniform(self, *a, **k):
        v = self._real.uniform(*a, **k)
        if getattr(self._owner, "_v_phase", "") == "exchange":
            self.exchange_uniforms.append((int(self._owner.current_proposal), float(v)))
        return v

    def __getattr__(self, name):
        return getattr(self._real, name)

    def __deepcopy__(self, memo):
        import copy

        return LoggingRNG(copy.deepcopy(self._real, memo), None)


class PipeProxy:
    def __init__(self, pipe, me, partner):
        self.pipe, self.me, self.partner = pipe, me, partner

    def _nap(self):
        if SLEEP["rnd"] is not None and SLEEP["scale"] > 0:
            time.sleep(SLEEP["rnd"].random() * SLEEP["scale"])

    def send(self, obj):
        self._nap()
        EVENTS.append(("S", self.partner))
        return self.pipe.send(obj)

    def recv(self):
        self._nap()
        r = self.pipe.recv()
        EVENTS.append(("R", self.partner))
        return r

    def close(self):
        return self.pipe.close()


def make_logging_pipematrix(base):
    class LoggingPipeMatrix(base):
        def retrieve_pipes(self, point1, point2):
            left, right = super().retrieve_pipes(point1, point2)
            return PipeProxy(left, point1, point2), PipeProxy(right, point1, point2)

    return LoggingPipeMatrix


def tap_class(base):
    class Tap(base):
        _v_logdir = None
        _v_sleep_seed = None
        _v_sleep_scale = 0.0

        def _propose(self):
            if not getattr(self, "_v_started", False):
                self._v_started = True
                self._v_trans = []
                self._v_cols = []
                EVENTS.clear()
                if self._v_sleep_seed is not None:
                    SLEEP["rnd"] = random.Random(self._v_sleep_seed * 1000 + self.sampler_index)
                    SLEEP["scale"] = self._v_sleep_scale
                if not isinstance(self.rng, LoggingRNG):
                    self.rng = LoggingRNG(self.rng, self)
                    if hasattr(self, "mass_matrix") and self.mass_matrix is not None:
                        self.mass_matrix.rng = self.rng
                else:
                    self.rng._owner = self
                orig = self.samples.append
                me = self

                def tapped(arr):
                    me._v_cols.append(np.array(arr, dtype=float).copy())
                    me._v_phase = ""
                    return orig(arr)

                self.samples.append = tapped
            self._v_phase = "kernel"
            return super()._propose()

        def _evaluate_acceptance(self):
            r = super()._evaluate_acceptance()
            self._v_trans.append((int(self.current_proposal), np.array(self.current_model, dtype=float).copy(), float(np.asarray(self.current_x, dtype=float).reshape(-1)[0])))
            self._v_phase = "exchange"
            return r

        def _close_sampler(self):
            r = super()._close_sampler()
            if self._v_logdir is not None and getattr(self, "_v_started", False):
                with open(os.path.join(self._v_logdir, f"tap_{self.sampler_index}.pkl"), "wb") as f:
                    pickle.dump({"trans": self._v_trans, "cols": self._v_cols, "events": list(EVENTS),
                                 "uniforms": list(self.rng.exchange_uniforms) if isinstance(self.rng, LoggingRNG) else []}, f)
            self._v_started = False
            return r

    Tap.__name__ = "Tap" + base.__name__
    return Tap


_TAPS = {}


def tapped(kind):
    from hmclab import Samplers as S

    if kind not in _TAPS:
        _TAPS[kind] = tap_class(getattr(S, kind))
    return _TAPS[kind]
