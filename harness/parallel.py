"""Running hmclab's ParallelSampleSMP under supervision: in a forked child (own process group) with a
time-out, so that a deadlock of the controller or of the chains is observed, diagnosed and killed
instead of hanging the check. Results come back through a pickle file."""
import multiprocessing as mp
import os
import pickle
import signal
import sys
import time
import traceback

import numpy as np


def supervised(fn, args=(), timeout=60.0, tmpdir=None):
    """run fn(*args) in a forked child; returns ('ok', result) | ('raised', repr) | ('timeout', diagnostic)"""
    out = os.path.join(tmpdir, f"sup_{os.getpid()}_{time.time_ns()}.pkl")
    ctx = mp.get_context("fork")

    def child():
        os.setsid()
        try:
            devnull = open(os.devnull, "w")
            sys.stdout = devnull
            sys.stderr = devnull
            r = fn(*args)
            with open(out, "wb") as f:
                pickle.dump(("ok", r), f)
        except BaseException as e:  # noqa: B902
            with open(out, "wb") as f:
                pickle.dump(("raised", repr(e) + "\n" + traceback.format_exc()[-1500:]), f)
        finally:
            os._exit(0)

    p = ctx.Process(target=child)
    p.start()
    p.join(timeout)
    if p.is_alive():
        diag = _diagnose(p.pid)
        try:
            os.killpg(p.pid, signal.SIGKILL)
        except Exception:
            pass
        p.join(5)
        return "timeout", diag
    if os.path.exists(out):
        with open(out, "rb") as f:
            r = pickle.load(f)
        os.remove(out)
        return r
    return "raised", "child exited without a result"


def _diagnose(pgid):
    """which processes of the group are alive and what they are blocked in (wchan)"""
    info = []
    try:
        for pid in os.listdir("/proc"):
            if not pid.isdigit():
                continue
            try:
                with open(f"/proc/{pid}/stat") as f:
                    st = f.read().split()
                if int(st[4]) != pgid:
                    continue
                try:
                    wchan = open(f"/proc/{pid}/wchan").read().strip()
                except Exception:
                    wchan = "?"
                info.append({"pid": int(pid), "state": st[2], "wchan": wchan})
            except Exception:
                continue
    except Exception:
        pass
    return {"alive_processes": len(info), "processes": info[:12]}


def read_samples(fn):
    from hmclab.Samples import Samples

    s = Samples(fn)
    arr = np.array(s.numpy, dtype=float)
    s.close()
    return arr
