import Mathlib.Analysis.Calculus.Deriv.Add
import Mathlib.Analysis.Calculus.Deriv.Mul
import Mathlib.Analysis.Calculus.Deriv.Pow
import Mathlib.Data.Matrix.Mul
import Mathlib.Tactic

open Finset Matrix

variable {ι : Type} [Fintype ι] [DecidableEq ι]

noncomputable def normalDiagMisfit (μ w : ι → ℝ) (x : ι → ℝ) : ℝ := (1/2) * ∑ j, (μ j - x j) * (w j * (μ j - x j))
def normalDiagGrad (μ w : ι → ℝ) (x : ι → ℝ) : ι → ℝ := fun j => -(w j) * (μ j - x j)

theorem normalDiag_hasDerivAt (μ w x v : ι → ℝ) :
    HasDerivAt (fun t : ℝ => normalDiagMisfit μ w (x + t • v)) (∑ j, normalDiagGrad μ w x j * v j) 0 := by
  unfold normalDiagMisfit normalDiagGrad
  have h : ∀ j ∈ (univ : Finset ι), HasDerivAt
      (fun t : ℝ => (μ j - (x + t • v) j) * (w j * (μ j - (x + t • v) j)))
      (2 * (-(w j) * (μ j - x j) * v j)) 0 := by
    intro j _
    have h1 : HasDerivAt (fun t : ℝ => μ j - (x + t • v) j) (-(v j)) 0 := by
      have := (((hasDerivAt_id (0:ℝ)).mul_const (v j)).const_add (x j)).const_sub (μ j)
      simpa [Pi.add_apply, Pi.smul_apply, smul_eq_mul] using this
    have := h1.mul (h1.const_mul (w j))
    refine this.congr_deriv ?_
    simp; ring
  have := (HasDerivAt.fun_sum h).const_mul (1/2 : ℝ)
  refine this.congr_deriv ?_
  rw [Finset.mul_sum]; apply Finset.sum_congr rfl; intro j _; ring

theorem quadForm_hasDerivAt (A : Matrix ι ι ℝ) (hA : A.IsSymm) (μ x v : ι → ℝ) :
    HasDerivAt (fun t : ℝ => (1/2) * ((μ - (x + t • v)) ⬝ᵥ (A *ᵥ (μ - (x + t • v)))))
      ((-(A *ᵥ (μ - x))) ⬝ᵥ v) 0 := by
  have hs : v ⬝ᵥ (A *ᵥ (μ - x)) = (μ - x) ⬝ᵥ (A *ᵥ v) := by
    rw [dotProduct_mulVec, ← hA.eq, vecMul_transpose, hA.eq, dotProduct_comm]
  have hexp : (fun t : ℝ => (1/2) * ((μ - (x + t • v)) ⬝ᵥ (A *ᵥ (μ - (x + t • v)))))
      = fun t => (1/2) * ((μ - x) ⬝ᵥ (A *ᵥ (μ - x))) - t * ((A *ᵥ (μ - x)) ⬝ᵥ v)
        + t^2 * ((1/2) * (v ⬝ᵥ (A *ᵥ v))) := by
    funext t
    have : μ - (x + t • v) = (μ - x) - t • v := by abel
    rw [this, mulVec_sub, mulVec_smul, sub_dotProduct, dotProduct_sub, dotProduct_sub,
      smul_dotProduct, dotProduct_smul, dotProduct_smul, smul_dotProduct, hs,
      dotProduct_comm (A *ᵥ (μ - x)) v, hs]
    simp only [smul_eq_mul]; ring
  rw [hexp]
  have h1 := ((hasDerivAt_id (0:ℝ)).mul_const ((A *ᵥ (μ - x)) ⬝ᵥ v)).const_sub ((1/2) * ((μ - x) ⬝ᵥ (A *ᵥ (μ - x))))
  have h2 := ((hasDerivAt_pow 2 (0:ℝ)).mul_const ((1/2) * (v ⬝ᵥ (A *ᵥ v))))
  have := h1.add h2
  simp only [id] at this
  refine (this.congr_deriv ?_)
  simp [neg_dotProduct]
#print axioms quadForm_hasDerivAt
