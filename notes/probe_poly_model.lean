-- import-free, polymorphic model fragment
class Scalar (α : Type) extends Add α, Sub α, Mul α, Div α, Neg α, OfScientific α, OfNat α 0, OfNat α 1 where
  exp : α → α
  lt  : α → α → Bool

instance : Scalar Float where
  exp := Float.exp
  lt a b := a < b

structure St (α : Type) where
  q : Array α
  p : Array α

inductive Op (α : Type) | drift (c : α) | kick (c : α)

variable {α : Type} [Scalar α]

def axpy (c : α) (x y : Array α) : Array α := Array.zipWith (fun xi yi => yi + c * xi) x y

def stepOp (minv : Array α) (grad : Array α → Array α) (s : St α) : Op α → St α
  | .drift c => { s with q := axpy c (Array.zipWith (· * ·) minv s.p) s.q }
  | .kick c  => { s with p := axpy (-c) (grad s.q) s.p }

def lfSchedule (h : α) (n : Nat) : List (Op α) :=
  [Op.drift (0.5 * h)] ++ (List.replicate (n - 1) [Op.kick h, Op.drift h]).flatten ++ [Op.kick h, Op.drift (0.5 * h)]

def runOps (minv : Array α) (grad : Array α → Array α) (ops : List (Op α)) (s : St α) : St α :=
  ops.foldl (stepOp minv grad) s
