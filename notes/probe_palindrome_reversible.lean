-- Abstract splitting scheme: state σ, a family of step maps indexed by ops, a flip.
namespace Split
variable {σ Op : Type} (step : Op → σ → σ) (flip : σ → σ)

def run (ops : List Op) (s : σ) : σ := ops.foldl (fun s o => step o s) s

/-- each elementary op is reversed by conjugation with flip -/
def StepReversible : Prop := ∀ o s, step o (flip (step o s)) = flip s

theorem run_append (a b : List Op) (s : σ) : run step (a ++ b) s = run step b (run step a s) := by
  simp [run, List.foldl_append]

theorem run_reverse_flip (h : StepReversible step flip) (ops : List Op) (s : σ) :
    run step ops.reverse (flip (run step ops s)) = flip s := by
  induction ops generalizing s with
  | nil => simp [run]
  | cons o os ih =>
    have : run step (o :: os) s = run step os (step o s) := by simp [run]
    rw [this, List.reverse_cons, run_append, ih]
    simp [run, h o s]

theorem palindrome_reversible (h : StepReversible step flip) (ops : List Op)
    (hp : ops.reverse = ops) (s : σ) :
    run step ops (flip (run step ops s)) = flip s := by
  have := run_reverse_flip step flip h ops s
  rwa [hp] at this
end Split
#print axioms Split.palindrome_reversible
