import Mathlib.MeasureTheory.Measure.Prod
import Mathlib.MeasureTheory.Measure.Lebesgue.Basic
import Mathlib.MeasureTheory.Group.Measure
import Mathlib.MeasureTheory.Constructions.Pi

open MeasureTheory Function

variable {ι : Type} [Fintype ι]

abbrev V (ι : Type) := ι → ℝ

/-- kick: (q,p) ↦ (q, p - c • g q) preserves Lebesgue volume for any measurable g -/
theorem kick_measurePreserving (g : V ι → V ι) (hg : Measurable g) (c : ℝ) :
    MeasurePreserving (fun x : V ι × V ι => (x.1, x.2 - c • g x.1))
      ((volume : Measure (V ι)).prod volume) ((volume : Measure (V ι)).prod volume) := by
  have h := (MeasurePreserving.id (volume : Measure (V ι))).skew_product
      (g := fun q p => p - c • g q) (μc := (volume : Measure (V ι))) (μd := volume)
      (by
        apply Measurable.sub measurable_snd
        exact (hg.comp measurable_fst).const_smul c)
      (ae_of_all _ fun q => by
        have : (fun p : V ι => p - c • g q) = fun p => p + (-(c • g q)) := by
          funext p; simp [sub_eq_add_neg]
        rw [this]
        exact (measurePreserving_add_right volume _).map_eq)
  simpa using h
#print axioms kick_measurePreserving
