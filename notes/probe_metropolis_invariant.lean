import Mathlib.MeasureTheory.Integral.Lebesgue.Map
import Mathlib.MeasureTheory.Integral.Lebesgue.Add
import Mathlib.MeasureTheory.Integral.Lebesgue.Sub
import Mathlib.Dynamics.Ergodic.MeasurePreserving

open MeasureTheory ENNReal

variable {X : Type*} [MeasurableSpace X] (μ : Measure X)

/-- Metropolis kernel with a deterministic involutive proposal, acting on test functions. -/
noncomputable def metropolisOp (Ψ : X → X) (a : X → ℝ≥0∞) (g : X → ℝ≥0∞) : X → ℝ≥0∞ :=
  fun x => a x * g (Ψ x) + (1 - a x) * g x

theorem metropolis_invariant
    (Ψ : X → X) (hΨ : MeasurePreserving Ψ μ μ) (hinv : ∀ x, Ψ (Ψ x) = x)
    (π a : X → ℝ≥0∞) (hπ : Measurable π) (ha : Measurable a)
    (hπfin : ∀ x, π x ≠ ∞) (ha1 : ∀ x, a x ≤ 1)
    (hrule : ∀ x, π x * a x = min (π x) (π (Ψ x)))
    (g : X → ℝ≥0∞) (hg : Measurable g) :
    ∫⁻ x, π x * metropolisOp Ψ a g x ∂μ = ∫⁻ x, π x * g x ∂μ := by
  set s : X → ℝ≥0∞ := fun x => min (π x) (π (Ψ x)) with hs
  have hsm : Measurable s := hπ.min (hπ.comp hΨ.measurable)
  have hsymm : ∀ x, s (Ψ x) = s x := by
    intro x; simp only [hs, hinv, min_comm]
  have hsle : ∀ x, s x ≤ π x := fun x => min_le_left _ _
  have hsfin : ∀ x, s x ≠ ∞ := fun x => ne_top_of_le_ne_top (hπfin x) (hsle x)
  -- pointwise decomposition
  have hpt : ∀ x, π x * metropolisOp Ψ a g x = s x * g (Ψ x) + (π x - s x) * g x := by
    intro x
    unfold metropolisOp
    have h1 : π x * (1 - a x) = π x - s x := by
      rw [ENNReal.mul_sub (fun _ _ => hπfin x), mul_one, hrule x]
    rw [mul_add, ← mul_assoc, ← mul_assoc, hrule x, h1]
  simp_rw [hpt]
  rw [lintegral_add_left (f := fun x => s x * g (Ψ x)) (hsm.mul (hg.comp hΨ.measurable))
    (fun x => (π x - s x) * g x)]
  -- change of variables in the first integral
  have hcv : ∫⁻ x, s x * g (Ψ x) ∂μ = ∫⁻ x, s x * g x ∂μ := by
    have := hΨ.lintegral_comp (f := fun x => s x * g (Ψ x)) (hsm.mul (hg.comp hΨ.measurable))
    rw [← this]
    congr 1; funext x; simp only [hsymm, hinv]
  rw [hcv, ← lintegral_add_left (f := fun x => s x * g x) (hsm.mul hg)]
  congr 1; funext x
  rw [← add_mul, add_tsub_cancel_of_le (hsle x)]
#print axioms metropolis_invariant
