#!/bin/bash
# commit_fix.sh <message-file> <Cxx> "<what failed>": run the repository's pinned suite on /repo's working tree (with the uncommitted repair),
# compare failing/erroring ids with the baseline list, and if identical commit the repair as one "fix:" commit and record it in known_findings.json.
set -u
MSG=$1; PID=$2; WHAT=$3
cd /repo || exit 2
[ -n "$(git status --porcelain -- hmclab)" ] || { echo "nothing to commit"; exit 2; }
head -1 "$MSG" | grep -q '^fix: ' || { echo "message must start with fix:"; exit 2; }
T=/tmp/seedtasks/fix_$$.
PYTHONPATH=/repo OMP_NUM_THREADS=1 MPLBACKEND=Agg /venv/bin/python -c "import signal, sys, runpy; signal.signal(signal.SIGINT, signal.default_int_handler); sys.argv = ['pytest', '-q', '-p', 'no:cacheprovider', '--timeout=900', '--continue-on-collection-errors', '--junitxml=${T}junit.xml']; runpy.run_module('pytest', run_name='__main__', alter_sys=True)" > ${T}pytest.out 2>&1
tail -1 ${T}pytest.out
/venv/bin/python - "${T}junit.xml" <<'PY' | sort > ${T}fail.txt
import sys, xml.etree.ElementTree as ET
for tc in ET.parse(sys.argv[1]).iter("testcase"):
    if tc.find("failure") is not None or tc.find("error") is not None:
        print(tc.get("classname") + "::" + tc.get("name"))
PY
D=$(comm -3 /tmp/seedtasks/baseline_fail.txt ${T}fail.txt)
if [ -n "$D" ]; then echo "SUITE DIFFERS FROM BASELINE:"; echo "$D" | head; exit 1; fi
[ -z "$(git status --porcelain | grep -v '^ M hmclab/')" ] || { echo "unexpected files in /repo:"; git status --porcelain | grep -v '^ M hmclab/' | head; }
git add -u hmclab && git commit -q -F "$MSG" && H=$(git log -1 --format=%h) && echo "committed $H"
python3 - "$PID" "$H" "$WHAT" <<'PY'
import json, sys
pid, h, what = sys.argv[1:4]
p = '/verif/known_findings.json'
d = json.load(open(p))
d['entries'].append({"kind": "fixed", "property": pid, "commit": h, "what": what})
json.dump(d, open(p, 'w'), indent=1, ensure_ascii=False)
PY
git -C /tmp/wt_mine checkout -q --detach "$(git -C /repo rev-parse HEAD)" 2>/dev/null
for n in $(ls /verif/seeded); do git -C /repo apply --check /verif/seeded/$n/patch.diff 2>/dev/null || echo "seed no longer applies: $n"; done
