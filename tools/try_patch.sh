#!/bin/bash
# try_patch.sh <patch.diff> <Cxx ...>: apply a patch to the private scratch worktree /tmp/wt_mine (a clean checkout of /repo's HEAD),
# run the given checks against it (HMCLAB_REPO), print their verdict lines and revert. Used while agents still work in their own worktrees.
set -u
PATCH=$(readlink -f "$1"); shift
WT=/tmp/wt_mine
git -C $WT checkout -q -- . && git -C $WT apply "$PATCH" || { echo "patch does not apply"; exit 2; }
cd "$(dirname "$0")/.."
for id in "$@"; do
  out=$(HMCLAB_REPO=$WT ./check $id --tier ${TIER:-quick} 2>&1); rc=$?
  echo "== check $id exit $rc"
  echo "$out" | grep -E '^(VIOLATION|KNOWN-FINDING)|suite' | cut -c1-260
done
git -C $WT checkout -q -- .
