#!/bin/bash
# commit_patch.sh <patch> <message-file> <Cxx> "<what failed>": commit one repair of a batch whose cumulative tree has already passed the
# pinned suite (tools/commit_fix.sh logic run by hand on the cumulative working tree); the patches of a batch touch disjoint hunks.
set -u
PATCH=$1; MSG=$2; PID=$3; WHAT=$4
cd /repo || exit 2
head -1 "$MSG" | grep -q '^fix: ' || { echo "message must start with fix:"; exit 2; }
git apply --cached "$PATCH" || { echo "patch does not apply to the index"; exit 2; }
git commit -q -F "$MSG" && H=$(git log -1 --format=%h) && echo "committed $H"
python3 - "$PID" "$H" "$WHAT" <<'PY'
import json, sys
pid, h, what = sys.argv[1:4]
p = '/verif/known_findings.json'
d = json.load(open(p))
d['entries'].append({"kind": "fixed", "property": pid, "commit": h, "what": what})
json.dump(d, open(p, 'w'), indent=1, ensure_ascii=False)
PY
