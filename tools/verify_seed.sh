#!/bin/bash
# verify_seed.sh <Cxx> <worktree>: confirm a seeded change delivered in <worktree>/_seed/
#   - patch.diff applies to a clean checkout and touches hmclab/ only
#   - demo.py exits 1 with the change, 0 without
#   - the repository's test suite has the same failing/erroring ids with the change as the baseline list given
# Writes <worktree>/$SD/verify.json. Baseline ids: /tmp/seedtasks/baseline_fail.txt (made by tools/suite_ids.sh on a clean worktree).
set -u
ID=$1; WT=$2; SD=${3:-_seed}        # SD: directory with patch.diff and demo.py (relative to the worktree)
TAG=$ID$(echo "$SD" | tr -c 'A-Za-z0-9\n' '_' | sed 's/^_seed//')
cd "$WT" || exit 2
export PYTHONPATH="$WT" OMP_NUM_THREADS=1 MPLBACKEND=Agg
cp $SD/patch.diff /tmp/seedtasks/$TAG.patch
git diff -- hmclab > /tmp/seedtasks/$TAG.tree.diff; git checkout -q -- hmclab
clean=$(git status --porcelain -- hmclab | wc -l)
/venv/bin/python $SD/demo.py > /tmp/seedtasks/$TAG.demo_clean.out 2>&1; rc_clean=$?
git apply --check /tmp/seedtasks/$TAG.patch && git apply /tmp/seedtasks/$TAG.patch; rc_apply=$?
files=$(git diff --name-only | tr '\n' ' ')
/venv/bin/python $SD/demo.py > /tmp/seedtasks/$TAG.demo_mut.out 2>&1; rc_mut=$?
# (a shell that starts this script in the background leaves SIGINT ignored, which Python inherits: tests/test_break.py relies on KeyboardInterrupt)
/venv/bin/python -c "import signal, sys, runpy; signal.signal(signal.SIGINT, signal.default_int_handler); sys.argv = ['pytest', '-q', '-p', 'no:cacheprovider', '--timeout=900', '--continue-on-collection-errors', '--junitxml=/tmp/seedtasks/$TAG.junit.xml']; runpy.run_module('pytest', run_name='__main__', alter_sys=True)" > /tmp/seedtasks/$TAG.pytest.out 2>&1
/venv/bin/python - "$TAG" <<'PY' > /tmp/seedtasks/$TAG.fail.txt
import sys, xml.etree.ElementTree as ET
t = ET.parse(f"/tmp/seedtasks/{sys.argv[1]}.junit.xml")
for tc in t.iter("testcase"):
    if tc.find("failure") is not None or tc.find("error") is not None:
        print(tc.get("classname") + "::" + tc.get("name"))
PY
sort -o /tmp/seedtasks/$TAG.fail.txt /tmp/seedtasks/$TAG.fail.txt
new=$(comm -13 /tmp/seedtasks/baseline_fail.txt /tmp/seedtasks/$TAG.fail.txt | wc -l)
gone=$(comm -23 /tmp/seedtasks/baseline_fail.txt /tmp/seedtasks/$TAG.fail.txt | wc -l)
git checkout -q -- hmclab   # leave the worktree clean
echo "{\"id\":\"$TAG\",\"clean_tree\":$clean,\"demo_clean_rc\":$rc_clean,\"apply_rc\":$rc_apply,\"files\":\"$files\",\"demo_mut_rc\":$rc_mut,\"new_failing_tests\":$new,\"no_longer_failing\":$gone,\"tail\":\"$(tail -1 /tmp/seedtasks/$TAG.pytest.out | tr -d '"')\"}" | tee $SD/verify.json
