#!/usr/bin/env python3
"""rebase_seed.py <seed-name> <edits.py> "<note>": re-create seeded/<name>/patch.diff against /repo's HEAD after a repair of the repository moved the code the
seeded change touches. edits.py defines EDITS = [(path, old, new), ...] - the same change, written against the current text. The change is applied in the
private worktree /tmp/wt_mine (at HEAD), the seed's demo.py is run with and without it (expected: exit 1 with, exit 0 without), and meta.json gets a `rebased` note."""
import json, os, subprocess, sys
name, edits, note = sys.argv[1], sys.argv[2], sys.argv[3]
WT = "/tmp/wt_mine"
ns = {}
exec(open(edits).read(), ns)
subprocess.check_call(["git", "-C", WT, "checkout", "-q", "--", "."])
head = subprocess.check_output(["git", "-C", "/repo", "rev-parse", "--short", "HEAD"]).decode().strip()
assert subprocess.check_output(["git", "-C", WT, "rev-parse", "--short", "HEAD"]).decode().strip() == head, "wt_mine is not at /repo's HEAD"
for path, old, new in ns["EDITS"]:
    p = os.path.join(WT, path)
    s = open(p).read()
    assert s.count(old) == 1, (path, s.count(old), old[:70])
    open(p, "w").write(s.replace(old, new))
diff = subprocess.check_output(["git", "-C", WT, "diff", "--", "hmclab"]).decode()
sd = f"/verif/seeded/{name}"
def demo():
    env = dict(os.environ, PYTHONPATH=WT, OMP_NUM_THREADS="1", MPLBACKEND="Agg")
    return subprocess.run(["/venv/bin/python", f"{sd}/demo.py"], env=env, cwd="/tmp", capture_output=True, text=True, timeout=1800).returncode
with_change = demo()
subprocess.check_call(["git", "-C", WT, "checkout", "-q", "--", "."])
without = demo()
print(name, "demo exit with change:", with_change, "without:", without)
if with_change == 0 or without != 0:
    print("NOT STORED"); sys.exit(1)
open(f"{sd}/patch.diff", "w").write(diff)
m = json.load(open(f"{sd}/meta.json"))
m.setdefault("rebased", [])
if isinstance(m["rebased"], str):
    m["rebased"] = [m["rebased"]]
m["rebased"].append(f"re-based on {head}: {note}; demo.py exit {with_change} with the change, {without} without")
json.dump(m, open(f"{sd}/meta.json", "w"), indent=1, ensure_ascii=False)
print("stored")
