#!/usr/bin/env python3
"""mkpatch.py <name> <edits.py>: build one repair of a batch as a patch against /repo's working tree and apply it to /repo's working tree as well.
edits.py defines EDITS = [(path, old, new), ...] (each `old` occurs exactly once in the file). The patch is written to
/tmp/seedtasks/batch/<name>.diff; each is later committed on its own, in order (tools/commit_patch.sh)."""
import os, subprocess, sys, tempfile
name, edits = sys.argv[1], sys.argv[2]
ns = {}
exec(open(edits).read(), ns)
out = []
for path in sorted({e[0] for e in ns["EDITS"]}):
    head = open(f"/repo/{path}").read()   # the working tree, i.e. HEAD plus the earlier repairs of the batch: commit in the order of /tmp/seedtasks/batch/ORDER
    new = head
    for (p, old, rep) in ns["EDITS"]:
        if p != path:
            continue
        assert new.count(old) == 1, (name, path, new.count(old), old[:60])
        new = new.replace(old, rep)
    with tempfile.TemporaryDirectory() as t:
        a, b = os.path.join(t, "a"), os.path.join(t, "b")
        open(a, "w").write(head); open(b, "w").write(new)
        d = subprocess.run(["diff", "-u", "--label", f"a/{path}", "--label", f"b/{path}", a, b], capture_output=True, text=True).stdout
    out.append(f"diff --git a/{path} b/{path}\n" + d)
pf = f"/tmp/seedtasks/batch/{name}.diff"
open(pf, "w").write("".join(out))
r = subprocess.run(["git", "-C", "/repo", "apply", pf])
open("/tmp/seedtasks/batch/ORDER", "a").write(name + "\n")
print(name, "patch lines:", sum(len(o.splitlines()) for o in out), "applied to working tree:", r.returncode == 0)
