#!/usr/bin/env python3
"""tools/register.py <Cxx> "<technique>" ["<level text>"] — move a property from not_applicable to checks in MANIFEST.json."""
import json, sys
pid, tech = sys.argv[1], sys.argv[2]
text = sys.argv[3] if len(sys.argv) > 3 else None
m = json.load(open("MANIFEST.json"))
m["not_applicable"] = [e for e in m.get("not_applicable", []) if e["property_id"] != pid]
m["checks"] = [c for c in m["checks"] if c["property_id"] != pid]
m["checks"].append({
    "property_id": pid,
    "quick_cmd": f"./check {pid} --tier quick",
    "thorough_cmd": f"./check {pid} --tier thorough",
    "evidence_file": f"evidence/{pid}.json",
    "replay_cmd_template": f"./check {pid} --replay {{path}}",
    "engine": "lean-model+harness",
    "level_claimed": {"category": "proof",
                      "text": text or "Lean 4 theorems about the executable model for all inputs/histories the property quantifies over; the model is tied to /repo on every run by a differential correspondence check, plus direct property oracles on the implementation",
                      "design_ref": f"DESIGN.md §4 {pid}"},
    "level_note": "Trusted: Lean kernel + propext/Classical.choice/Quot.sound; hand-written model validated only by differential testing on generated inputs; real (or IEEE-like Ext) arithmetic instead of float64; external calls (targets, PRNG, storage, OS) are parameters; harness probes. See DESIGN.md §3.",
    "technique": tech})
m["checks"].sort(key=lambda c: c["property_id"])
for e in m["engines"]:
    if pid not in e["serves_properties"]:
        e["serves_properties"].append(pid); e["serves_properties"].sort()
json.dump(m, open("MANIFEST.json", "w"), indent=1)
print("registered", pid)
