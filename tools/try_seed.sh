#!/bin/bash
# try_seed.sh <seed-dir-name> [Cxx ...]: apply seeded/<name>/patch.diff to /repo, run the given checks (default: the
# property named in meta.json), print their VIOLATION / KNOWN-FINDING lines and exit codes, and undo the change.
set -u
cd "$(dirname "$0")/.."
NAME=$1; shift
REPO=${HMCLAB_REPO:-/repo}
PATCH=seeded/$NAME/patch.diff
[ -f "$PATCH" ] || { echo "no $PATCH"; exit 2; }
if [ -n "$(git -C "$REPO" status --porcelain -- hmclab)" ]; then echo "$REPO/hmclab is not clean"; exit 2; fi
IDS="$*"; [ -z "$IDS" ] && IDS=$(python3 -c "import json;print(json.load(open('seeded/$NAME/meta.json'))['property'])")
TIER=${TIER:-quick}
git -C "$REPO" apply "$(pwd)/$PATCH" || exit 2
# the evidence of a run against a seeded tree is not evidence of record
export VERIF_EVIDENCE_DIR=$(mktemp -d /tmp/ev_try.XXXX)
trap 'git -C "$REPO" checkout -- hmclab; rm -rf "$VERIF_EVIDENCE_DIR"' EXIT
for id in $IDS; do
  out=$(./check $id --tier $TIER 2>&1); rc=$?
  echo "== seed $NAME check $id tier $TIER exit $rc"
  echo "$out" | grep -E '^(VIOLATION|KNOWN-FINDING)' | cut -c1-300
done
