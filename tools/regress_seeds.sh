#!/bin/bash
# regress_seeds.sh <Cxx> [...]: run every stored, non-retired seeded change of the given properties against its property's check (quick tier),
# in a scratch worktree of /repo's HEAD (HMCLAB_REPO), evidence redirected to a scratch directory; prints one line per seed.
set -u
cd "$(dirname "$0")/.."
WT=$(mktemp -d /tmp/wt_regress.XXXX); rmdir "$WT"
git -C /repo worktree add --detach "$WT" HEAD >/dev/null 2>&1 || exit 2
EV=$(mktemp -d /tmp/ev_regress.XXXX)
trap 'git -C /repo worktree remove --force "$WT"; rm -rf "$EV"' EXIT
for pid in "$@"; do
  for d in seeded/*; do
    m="$d/meta.json"; [ -f "$m" ] || continue
    p=$(python3 -c "import json;m=json.load(open('$m'));print(m['property'] if not m.get('retired') else '')")
    [ "$p" = "$pid" ] || continue
    git -C "$WT" checkout -q -- hmclab
    if ! git -C "$WT" apply "$(pwd)/$d/patch.diff" 2>/dev/null; then echo "$(basename $d) APPLY-FAILED"; continue; fi
    out=$(HMCLAB_REPO="$WT" VERIF_EVIDENCE_DIR="$EV" VERIF_SEED=${VERIF_SEED:-1} ./check $pid --tier quick 2>&1); rc=$?
    n=$(echo "$out" | grep -c '^VIOLATION')
    nf=$(echo "$out" | grep '^VIOLATION' | grep -c 'no-failing-input-found')
    echo "$(basename $d) check=$pid exit=$rc violations=$n without-input=$nf"
  done
done
