#!/usr/bin/env python3
"""store_seed.py <Cxx> <worktree> <name> "<needs>" "<caught-by>" [<subdir, default _seed>]: copy a confirmed seeded change into seeded/<name>/"""
import json, os, shutil, sys
pid, wt, name, needs, caught = sys.argv[1:6]
sub = sys.argv[6] if len(sys.argv) > 6 else "_seed"
dst = os.path.join(os.path.dirname(os.path.abspath(__file__)), "..", "seeded", name)
os.makedirs(dst, exist_ok=True)
shutil.copy(os.path.join(wt, sub, "patch.diff"), os.path.join(dst, "patch.diff"))
shutil.copy(os.path.join(wt, sub, "demo.py"), os.path.join(dst, "demo.py"))
if os.path.exists(os.path.join(wt, sub, "NOTES.md")):
    shutil.copy(os.path.join(wt, sub, "NOTES.md"), os.path.join(dst, "NOTES.md"))
ver = json.load(open(os.path.join(wt, sub, "verify.json")))
meta = {
    "property": pid,
    "needs_to_manifest": needs,
    "confirmed": {
        "how": "tools/verify_seed.sh in a scratch worktree of /repo (HEAD with the fix: commits): demo.py on the clean checkout, patch applied with git apply, "
               "demo.py again, then the repository's full pytest suite with the change; failing/erroring test ids compared with the clean checkout's",
        "demo_exit_without_change": ver["demo_clean_rc"],
        "demo_exit_with_change": ver["demo_mut_rc"],
        "new_failing_or_erroring_tests": ver["new_failing_tests"],
        "suite_summary_with_change": ver["tail"],
        "files_touched": ver["files"].split(),
    },
    "checks": caught,
}
json.dump(meta, open(os.path.join(dst, "meta.json"), "w"), indent=1)
print("stored", dst)
