#!/bin/bash
# run_suite.sh: run the repository's pinned suite on /repo's working tree and compare failing/erroring ids with the baseline list (exit 0 = identical)
set -u
cd /repo || exit 2
T=/tmp/seedtasks/suite_$$.
PYTHONPATH=/repo OMP_NUM_THREADS=1 MPLBACKEND=Agg /venv/bin/python -c "import signal, sys, runpy; signal.signal(signal.SIGINT, signal.default_int_handler); sys.argv = ['pytest', '-q', '-p', 'no:cacheprovider', '--timeout=900', '--continue-on-collection-errors', '--junitxml=${T}junit.xml']; runpy.run_module('pytest', run_name='__main__', alter_sys=True)" > ${T}pytest.out 2>&1
tail -1 ${T}pytest.out
/venv/bin/python - "${T}junit.xml" <<'PY' | sort > ${T}fail.txt
import sys, xml.etree.ElementTree as ET
for tc in ET.parse(sys.argv[1]).iter("testcase"):
    if tc.find("failure") is not None or tc.find("error") is not None:
        print(tc.get("classname") + "::" + tc.get("name"))
PY
D=$(comm -3 /tmp/seedtasks/baseline_fail.txt ${T}fail.txt)
if [ -n "$D" ]; then echo "SUITE DIFFERS FROM BASELINE:"; echo "$D" | head -20; exit 1; fi
echo "SUITE IDENTICAL TO BASELINE"
git status --porcelain | grep -v '^ M hmclab/' | head
